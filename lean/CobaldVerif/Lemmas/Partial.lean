import CobaldVerif.Model.Partial

namespace Cobald.Partial

mutual
def noObj : Item → Bool
  | .tmpl _ => true
  | .bind _ ts => noObjL ts
  | .obj _ => false
def noObjL : List Item → Bool
  | [] => true
  | i :: is => noObj i && noObjL is
end

theorem nest_append (a b : List Tmpl) (o : Obj) : nest (a ++ b) o = nest a (nest b o) := by
  induction a with
  | nil => rfl
  | cons t a ih => simp [nest, ih]

mutual
theorem applyTo_spec : ∀ (it : Item) (o : Obj), noObj it = true →
    applyTo it o = some (nest (flatten it) o, (flatten it).reverse)
  | .tmpl t, o, _ => by simp [applyTo, flatten, nest]
  | .bind p ts, o, h => by
      have h' : noObjL ts = true := by simpa [noObj] using h
      simp [applyTo, applyL_spec ts o h', flatten, nest]
  | .obj _, _, h => by simp [noObj] at h
theorem applyL_spec : ∀ (is : List Item) (o : Obj), noObjL is = true →
    applyL is o = some (nest (flattenL is) o, (flattenL is).reverse)
  | [], o, _ => by simp [applyL, flattenL, nest]
  | i :: is, o, h => by
      have h1 : noObj i = true ∧ noObjL is = true := by simpa [noObjL] using h
      simp [applyL, applyL_spec is o h1.2, applyTo_spec i _ h1.1, flattenL, nest_append]
end

def isHead : Item → Bool
  | .tmpl t => !t.leaf
  | _ => false

def headT : Item → List Tmpl
  | .tmpl t => [t]
  | _ => []

theorem flattenL_append (a b : List Item) : flattenL (a ++ b) = flattenL a ++ flattenL b := by
  induction a with
  | nil => rfl
  | cons i is ih => simp [flattenL, ih]

theorem noObjL_append (a b : List Item) : noObjL (a ++ b) = (noObjL a && noObjL b) := by
  induction a with
  | nil => simp [noObjL]
  | cons i is ih => simp [noObjL, ih, Bool.and_assoc]

/-- the templates of a list of items that are all plain templates -/
def tmplsOf : List Item → List Tmpl
  | [] => []
  | i :: is => headT i ++ tmplsOf is

theorem tmplsOf_append (a b : List Item) : tmplsOf (a ++ b) = tmplsOf a ++ tmplsOf b := by
  induction a with
  | nil => rfl
  | cons i is ih => simp [tmplsOf, ih]

def headOK : Item → Bool
  | .tmpl t => !t.leaf
  | .bind _ _ => true
  | .obj _ => false

/-- any grouping of non-leaf templates evaluates, constructing nothing, to an item that
flattens to the templates in order -/
theorem eval_heads (e : Expr) (h : ∀ i ∈ leaves e, isHead i = true) :
    ∃ it, eval e = some (it, []) ∧ noObj it = true ∧ flatten it = tmplsOf (leaves e) ∧
      headOK it = true := by
  induction e with
  | leaf i =>
    cases i with
    | tmpl t =>
      have : isHead (.tmpl t) = true := h _ (by simp [leaves])
      exact ⟨.tmpl t, rfl, rfl, by simp [flatten, leaves, tmplsOf, headT], by simpa [isHead, headOK] using this⟩
    | bind p ts => simp [leaves, isHead] at h
    | obj o => simp [leaves, isHead] at h
  | shift l r ihl ihr =>
    have hl : ∀ i ∈ leaves l, isHead i = true := fun i hi => h i (by simp [leaves, hi])
    have hr : ∀ i ∈ leaves r, isHead i = true := fun i hi => h i (by simp [leaves, hi])
    obtain ⟨a, ea, na, fa, oa⟩ := ihl hl
    obtain ⟨b, eb, nb, fb, ob⟩ := ihr hr
    cases a with
    | obj o => simp [headOK] at oa
    | tmpl s =>
      cases b with
      | obj o => simp [headOK] at ob
      | tmpl t =>
        have ht : t.leaf = false := by simpa [headOK] using ob
        refine ⟨.bind s [.tmpl t], ?_, ?_, ?_, rfl⟩
        · simp [eval, ea, eb, rshift, ht]
        · simp [noObj, noObjL]
        · simp [flatten, flattenL, leaves, tmplsOf_append, ← fa, ← fb]
      | bind q us =>
        refine ⟨.bind s (.tmpl q :: us), ?_, ?_, ?_, rfl⟩
        · simp [eval, ea, eb, rshift]
        · simpa [noObj, noObjL] using nb
        · simp [flatten, flattenL, leaves, tmplsOf_append, ← fa, ← fb]
    | bind p ts =>
      have nts : noObjL ts = true := by simpa [noObj] using na
      cases b with
      | obj o => simp [headOK] at ob
      | tmpl t =>
        have ht : t.leaf = false := by simpa [headOK] using ob
        refine ⟨.bind p (ts ++ [.tmpl t]), ?_, ?_, ?_, rfl⟩
        · simp [eval, ea, eb, rshift, ht]
        · simp [noObj, noObjL_append, nts, noObjL]
        · simp [flatten, flattenL_append, flattenL, leaves, tmplsOf_append, ← fa, ← fb]
      | bind q us =>
        refine ⟨.bind p (ts ++ [.bind q us]), ?_, ?_, ?_, rfl⟩
        · simp [eval, ea, eb, rshift]
        · have : noObjL us = true := by simpa [noObj] using nb
          simp [noObj, noObjL_append, nts, noObjL, this]
        · simp [flatten, flattenL_append, flattenL, leaves, tmplsOf_append, ← fa, ← fb]

/-- the three tail forms: a pool instance, or a (possibly curried) pool template -/
def tailObj : Item → Option (Obj × Log)
  | .obj o => some (o, [])
  | .tmpl t => if t.leaf then some (mkLeaf t, [t]) else none
  | .bind _ _ => none

theorem leaves_ne_nil (e : Expr) : leaves e ≠ [] := by
  induction e with
  | leaf i => simp [leaves]
  | shift l r ihl _ => simp [leaves, ihl]

theorem leaves_singleton (e : Expr) (x : Item) (h : leaves e = [x]) : e = .leaf x := by
  cases e with
  | leaf i => simp [leaves] at h; rw [h]
  | shift l r =>
    have h1 := leaves_ne_nil l
    have h2 := leaves_ne_nil r
    simp only [leaves] at h
    cases hl : leaves l with
    | nil => exact absurd hl h1
    | cons a as =>
      cases hr : leaves r with
      | nil => exact absurd hr h2
      | cons b bs => rw [hl, hr] at h; simp at h

theorem split_last {α} (a b hs : List α) (t : α) (hb : b ≠ []) (h : a ++ b = hs ++ [t]) :
    ∃ b', b = b' ++ [t] ∧ hs = a ++ b' := by
  have hb' : b = b.dropLast ++ [b.getLast hb] := (List.dropLast_concat_getLast hb).symm
  rw [hb', ← List.append_assoc] at h
  have := List.append_inj' h (by simp)
  refine ⟨b.dropLast, ?_, this.1.symm⟩
  have ht : b.getLast hb = t := by simpa using this.2
  rw [← ht]; exact hb'

theorem rshift_obj (a : Item) (o : Obj) (na : noObj a = true) (ha : headOK a = true) :
    rshift a (.obj o) = some (.obj (nest (flatten a) o), (flatten a).reverse) := by
  cases a with
  | obj x => simp [headOK] at ha
  | tmpl s => simp [rshift, flatten, nest]
  | bind p ts => simp [rshift, applyTo_spec (.bind p ts) o na]

theorem rshift_leaf (a : Item) (t : Tmpl) (ht : t.leaf = true) (na : noObj a = true)
    (ha : headOK a = true) :
    rshift a (.tmpl t) = some (.obj (nest (flatten a) (mkLeaf t)), t :: (flatten a).reverse) := by
  cases a with
  | obj x => simp [headOK] at ha
  | tmpl s => simp [rshift, ht, flatten, nest]
  | bind p ts => simp [rshift, ht, applyTo_spec (.bind p ts) (mkLeaf t) na]

end Cobald.Partial
